"""C09 — the Cedar-syntax -> JSON schema conversion keeps every component in its own role.

Decides one structural necessary condition of 'both schema syntaxes denote the same schema': in
cedar_schema::to_json_schema each component of a JSON schema item is filled from the component of the
Cedar-syntax declaration that has that role, and from no other:
  entity:    member_of_types <- `in` list, shape <- attribute declarations, tags <- tags;
  attribute: name, ty, required <- the declaration's own name / type / optionality flag;
  action:    member_of <- parents, applies_to <- appliesTo declarations;
  appliesTo: principal_types <- the `principal` declaration, resource_types <- the `resource` one, context <- `context`.
It does not decide the Cedar-syntax printer (string formatting), name / common-type resolution, or equality of
the loaded schemas - those are value-level and stay not applicable.
"""
from lib import shape, cfg, xlabels
from lib.facts import callee
from lib.rulelib import get_fn, short

T = "cedar_policy_core::validator::cedar_schema::to_json_schema::"
JS = "cedar_policy_core::validator::json_schema::"
SRC = "cedar_schema::ast::"


def src_seed(p):
    out = []
    for e in p[1:]:
        if isinstance(e, list) and e[0] == "f" and SRC in str(e[3]) and e[2] and not str(e[2]).isdigit():
            out.append("SRC:" + e[2])
    return out


def agg_fields(chk, rule, facts, fname, target, spec, tag):
    """spec: {target field: source field}; every listed field of the `target` literal must derive from exactly that source field."""
    f = get_fn(chk, facts, rule, fname)
    if f is None:
        return 0
    universe = {"SRC:" + v for v in spec.values()}
    n = 0
    found = False
    for g, L in xlabels.bodies_with_labels(facts, f, src_seed):
        for b, s in g.stmts():
            if s[0] == "a" and s[2][0] == "agg" and s[2][1][0] == "adt" and s[2][1][1] == target:
                found = True
                for nm, o in zip(s[2][1][3], s[2][2]):
                    if nm not in spec:
                        continue
                    labs = {x for x in L.operand_labels(o) if x in universe}
                    want = {"SRC:" + spec[nm]}
                    n += 1
                    chk.ob(rule, "%s:%s" % (tag, nm), labs == want, "%s.%s is filled from the declaration's %s%s" % (target.split("::")[-1], nm, sorted(x[4:] for x in labs), "" if labs == want else " — required exactly `%s`" % spec[nm]),
                           where=g.where(s[3]), fn=g.name, key="%s:%s:%s" % (rule, tag, nm), sample={"field": nm, "from": sorted(x[4:] for x in labs)})
    if not found:
        chk.lost(rule, "%s literal in %s" % (target.split("::")[-1], short(fname)))
    return n


def applies_to(chk, rule, facts):
    """Role agreement without relying on local names: the accumulator a `principal` declaration is recorded in is the one
    ApplySpec.principal_types is read from (same for resource / context), and no other."""
    f = get_fn(chk, facts, rule, T + "convert_app_decls")
    if f is None:
        return 0
    PR = facts.adts.get("cedar_policy_core::validator::cedar_schema::ast::PR")
    APP = facts.adts.get("cedar_policy_core::validator::cedar_schema::ast::AppDecl")
    if PR is None or APP is None:
        chk.lost(rule, "cedar_schema::ast::PR / AppDecl")
        return 0
    # accumulators: Option-typed locals assigned both outside the declaration arms (initialisation) and inside one
    arm_regions = {}
    for b, scrut, arms, other in shape.variant_switches(f, "cedar_schema::ast::PR"):
        for vi, tgt in arms.items():
            arm_regions[PR["variants"][vi]["name"]] = cfg.dominated_region(f, tgt)
    for b, scrut, arms, other in shape.variant_switches(f, "cedar_schema::ast::AppDecl"):
        for vi, tgt in arms.items():
            if APP["variants"][vi]["name"] == "Context":
                arm_regions["Context"] = cfg.dominated_region(f, tgt)
    inside = {}
    outside = set()
    all_arm_blocks = set().union(*arm_regions.values()) if arm_regions else set()
    for b, st in f.stmts():
        if st[0] == "a" and len(st[1]) == 1 and f.locals[st[1][0]].startswith(("std::option::Option<", "core::option::Option<", "option::Option<")):
            if b in all_arm_blocks:
                for role, reg in arm_regions.items():
                    if b in reg:
                        inside.setdefault(st[1][0], set()).add(role)
            else:
                outside.add(st[1][0])
    acc = {l: roles for l, roles in inside.items() if l in outside}
    L = shape.Labels(f, None, lambda p: ["ACC:%d" % p[0]] if p[0] in acc else [])
    reads = {}
    for b, st in f.stmts():
        if st[0] == "a" and st[2][0] == "agg" and st[2][1][0] == "adt" and st[2][1][1] == JS + "ApplySpec":
            for nm, o in zip(st[2][1][3], st[2][2]):
                reads[nm] = {int(x[4:]) for x in L.operand_labels(o) if x.startswith("ACC:")}
    n = 0
    want = {"Principal": "principal_types", "Resource": "resource_types", "Context": "context"}
    if not reads:
        chk.lost(rule, "ApplySpec literal in convert_app_decls")
        return 0
    for role, fld in want.items():
        mine = {l for l, roles in acc.items() if role in roles}
        ok = bool(mine) and bool(mine & reads.get(fld, set())) and not any(mine & ls for nm, ls in reads.items() if nm != fld) and all(acc[l] == {role} for l in mine)
        n += 1
        chk.ob(rule, "appliesTo:%s" % fld, ok, "a `%s` declaration is recorded in accumulator(s) %s; ApplySpec.%s reads %s; other fields read %s" %
               (role.lower(), sorted(mine), fld, sorted(reads.get(fld, [])), {nm: sorted(ls) for nm, ls in reads.items() if nm != fld}), where=f.where(), fn=f.name,
               key="%s:appliesTo:%s" % (rule, fld), sample={"role": role, "accumulators": sorted(mine), "field_reads": sorted(reads.get(fld, []))})
    return n


JSF = "cedar_policy_core::validator::json_schema::"
IND = " as cedar_policy_core::validator::cedar_schema::fmt::IndentedDisplay>::fmt_indented"


def _field_seed(adt_suffix):
    def seed(p):
        return ["F:" + e[2] for e in p[1:] if isinstance(e, list) and e[0] == "f" and adt_suffix in str(e[3]) and e[2]]
    return seed


def printed_components(chk, rule, facts, fname, adt_suffix, fields, tag):
    """Every component is printed unless its OWN absence test says there is nothing to print: no path to the Ok return avoids the
    component's print site except through the skip edge of a test on that very component."""
    from lib import protocol
    f = get_fn(chk, facts, rule, fname)
    if f is None:
        return 0
    L = shape.Labels(f, None, _field_seed(adt_suffix))
    oks = protocol.ok_blocks(f) or set(cfg.return_blocks(f))
    n = 0
    for g in fields:
        lab = "F:" + g
        prints = set()
        for b, t in f.calls():
            c = callee(t)
            if c.endswith(("Argument::new_display", "Argument::<'_>::new_display", "::fmt_indented", "fmt::fmt_non_empty_slice", "Display>::fmt")) or "::fmt_" in c:
                if any(lab in L.operand_labels(o) for o in t[2]):
                    prints.add(b)
        own = set()
        for b, blk in enumerate(f.blocks):
            if blk["cl"] or blk["t"][0] != "sw":
                continue
            op = blk["t"][1]
            if op[0] in ("c", "m") and lab in L.operand_labels(op):
                own.add(b)
        cut_edges = set()
        for d in own:
            sw = f.blocks[d]["t"]
            for v, bb in [(v, bb) for v, bb in sw[2]] + [("else", sw[3])]:
                # an edge of the component's own test from which no print site of the component is reachable is its skip edge
                if not (cfg.reachable(f, bb, cut_blocks={d}) & prints):
                    cut_edges.add((d, bb))
        r = cfg.reachable(f, 0, cut_blocks=prints, cut_edges=cut_edges)
        ok = bool(prints) and not (r & oks)
        n += 1
        chk.ob(rule, "%s:%s" % (tag, g), ok, "component `%s` is %s" % (g, "printed on every path unless its own test finds it absent" if ok else
               ("never printed" if not prints else "skipped on a path that does not depend on `%s` itself (an unrelated condition returns before it is printed)" % g)),
               where=f.where(), fn=f.name, key="%s:%s:%s" % (rule, tag, g), sample={"component": g, "print_sites": len(prints), "own_tests": len(own)})
    return n


def schema_printer(chk, facts):
    rule = "C09.PRINT"
    n = 0
    n += printed_components(chk, rule, facts, "<" + JSF + "StandardEntityType<N>" + IND, "json_schema::StandardEntityType", ["member_of_types", "shape", "tags"], "entity")
    n += printed_components(chk, rule, facts, "<" + JSF + "ActionType<N>" + IND, "json_schema::ActionType", ["member_of", "applies_to"], "action")
    n += printed_components(chk, rule, facts, "<" + JSF + "NamespaceDefinition<N>" + IND, "json_schema::NamespaceDefinition", ["common_types", "entity_types", "actions"], "namespace")
    # attribute names: bare only under is_normalized_ident, otherwise quoted and escaped; `?` exactly for optional attributes
    f = get_fn(chk, facts, rule, "<" + JSF + "RecordType<N>" + IND)
    if f is not None:
        from lib import panics, protocol
        guards = []
        for b, t in f.calls():
            if callee(t).endswith("SmolStr as std::clone::Clone>::clone") or callee(t).endswith("SmolStr::clone"):
                for d, taken in cfg.guard_edges(f, b):
                    sw = f.blocks[d]["t"]
                    if sw[1][0] in ("c", "m"):
                        guards.append((panics.producer(f, sw[1]), [v for v, _ in taken]))
        call_guards = [(p, tk) for p, tk in guards if p.startswith("call:")]
        bare_ok = any(p.endswith("ast::name::is_normalized_ident") and tk == ["else"] for p, tk in call_guards) and all(p.endswith("ast::name::is_normalized_ident") for p, tk in call_guards)
        esc = any(callee(t).endswith("::escape_debug") for _, t in f.calls())
        n += 1
        chk.ob(rule, "attribute:name", bare_ok and esc, "an attribute name is written bare only when is_normalized_ident accepts it (guards on the bare copy: %s) and escaped otherwise (%s)" % ([g_[0].split("::")[-1] for g_ in guards], esc),
               where=f.where(), fn=f.name, key="%s:attribute:name" % rule)
        # the optionality marker
        req = [b for b, blk in enumerate(f.blocks) if not blk["cl"] and blk["t"][0] == "sw" and blk["t"][1][0] in ("c", "m") and
               any(isinstance(e, list) and e[0] == "f" and e[2] == "required" for _, s_ in [(0, x) for x in blk["st"]] if s_[0] == "a" for p_ in shape._rv_places(s_[2]) for e in p_[1:])]
        marks = {}
        for d in req:
            sw = f.blocks[d]["t"]
            for v, bb in [(v, bb) for v, bb in sw[2]] + [("else", sw[3])]:
                lits = [s_[2][1][1].get("s") for x in cfg.reachable(f, bb, cut_blocks={d}) & cfg.dominated_region(f, bb) for s_ in f.blocks[x]["st"] if s_[0] == "a" and s_[2][0] == "use" and s_[2][1][0] == "k" and "s" in s_[2][1][1]]
                marks[str(v)] = lits
        ok = marks.get("0") == ["?"] and marks.get("else") == [""]
        n += 1
        chk.ob(rule, "attribute:optional", ok, "`?` is printed exactly when `required` is false: %s" % marks, where=f.where(), fn=f.name, key="%s:attribute:optional" % rule)
    chk.floor(rule, "printed components", n, 9)


def collision_guard(chk, facts):
    """JSON -> Cedar syntax refuses schemas the Cedar syntax cannot express: an entity type and a common type sharing a
    name in one namespace. Both sides of that comparison are *all* names of their kind in the namespace (keys of the
    entity_types / common_types maps, mapped and collected, never filtered)."""
    from lib.slice import leaf_producers
    rule = "C09.COLLISION"
    f = facts.fn("cedar_policy_core::validator::cedar_schema::fmt::json_schema_to_cedar_schema_str")
    if f is None:
        chk.lost(rule, "cedar_schema::fmt::json_schema_to_cedar_schema_str")
        return
    chk.functions.add(f.name)
    inter = [(b, t) for b, t in f.calls() if callee(t).endswith("::intersection")]
    if len(inter) != 1:
        chk.lost(rule, "the entity-type / common-type name intersection", "found %d" % len(inter))
        return
    b, t = inter[0]
    tr = ("::collect", "::map", "::keys", "::iter", "::cloned", "::into_iter", "::copied")
    sides = [leaf_producers(f, o, extra_transparent=tr) for o in t[2][:2]]
    fields = []
    for pr in sides:
        fl = sorted(x[6:].split(".")[-1] for x in pr if x.startswith("place:") and x[6:].split(".")[-1] in ("entity_types", "common_types"))
        calls = sorted(x for x in pr if x.startswith("call:"))
        fields.append((fl, calls))
    ok = sorted(fl[0] for fl, _ in fields if len(fl) == 1) == ["common_types", "entity_types"] and not any(c for _, c in fields)
    chk.ob(rule, "all-names", ok, "the collision check intersects all entity-type names with all common-type names of the namespace: sides %s" % [(fl, [c.split("::")[-1] for c in cs]) for fl, cs in fields],
           where=f.where(t[1].get("l")), fn=f.name, sample={"sides": [fl for fl, _ in fields]})
    # a collision is an error
    ext = [(b2, t2) for b2, t2 in f.calls() if callee(t2).endswith("::extend") and cfg.dominates(f, b, b2)]
    errs = [s_ for _, s_ in f.stmts() if s_[0] == "a" and s_[2][0] == "agg" and s_[2][1][0] == "adt" and str(s_[2][1][1]).endswith("NameCollisionsError")]
    chk.ob(rule, "reported", bool(ext) and len(errs) == 1, "collisions are collected (%d extend) and reported as NameCollisionsError (%d site)" % (len(ext), len(errs)), where=f.where(), fn=f.name)


def namespace_of_loaded_schema(chk, facts):
    """ValidatorSchema::to_json_schema groups declarations by the namespace of their fully-qualified name: the namespace
    `A::B` is the name with basename B (the *last* component) under path [A]."""
    from lib.slice import leaf_producers
    rule = "C09.NAMESPACE"
    f = facts.fn("cedar_policy_core::validator::schema::to_json::<impl cedar_policy_core::validator::schema::ValidatorSchema>::to_json_schema")
    if f is None:
        hits = [n for n in facts.fns.keys() if n.endswith("ValidatorSchema>::to_json_schema") and "to_json" in n]
        f = facts.fns[hits[0]] if len(hits) == 1 else None
    if f is None:
        chk.lost(rule, "ValidatorSchema::to_json_schema")
        return
    chk.functions.add(f.name)
    new = [(b, t) for b, t in f.calls() if callee(t).endswith("name::InternalName::new")]
    if len(new) != 1:
        chk.lost(rule, "the InternalName::new call rebuilding the namespace name", "found %d" % len(new))
        return
    b, t = new[0]
    # where the basename comes from: follow moves / pattern bindings back to the call that split the path
    from lib import panics
    defs = panics._def_sites(f)
    src = []
    work, seen = [t[2][0]], set()
    while work:
        o = work.pop()
        if o[0] not in ("c", "m") or o[1][0] in seen:
            continue
        l = o[1][0]
        seen.add(l)
        for kind, bb, x in defs.get(l, []):
            if kind == "call":
                c = callee(x)
                if c.endswith(("Clone>::clone", "::cloned", "::unwrap", "::expect", "::to_owned")) and x[2]:
                    work.append(x[2][0])
                else:
                    src.append(c.split("::")[-1])
            elif x[2][0] == "use":
                work.append(["c", [x[2][1][1][0]]] if x[2][1][0] in ("c", "m") else x[2][1])
            elif x[2][0] in ("ref", "addr"):
                work.append(["c", [x[2][1][0]]])
    ok = bool(src) and all(x in ("pop", "split_last", "last", "pop_back") for x in src)
    chk.ob(rule, "basename-is-last", bool(ok), "the namespace's name is rebuilt with its last path component as basename (splitting calls: %s)" % src, where=f.where(t[1].get("l")), fn=f.name,
           sample={"split": src})


def run(chk, facts, tier):
    facts.load_crate("cedar_policy_core.lib")
    chk.explanation = (
        "Static decision of one structural necessary condition of 'the two schema syntaxes denote the same schema' on the current MIR: in cedar_schema::to_json_schema every component of "
        "a JSON schema item is filled from the component of the Cedar-syntax declaration that has that role and from no other (entity: member_of_types / shape / tags; attribute: name / type / "
        "required; action: member_of / applies_to; appliesTo: principal, resource and context declarations go to their own lists). Declines the Cedar-syntax printer, name and common-type "
        "resolution and the equality of the loaded schemas (value-level).")
    chk.assumptions = ["label provenance is flow-insensitive per body, across closure captures", "MIR at mir-opt-level=0 reflects source control flow"]
    rule = "C09.FIELDS"
    n = 0
    n += agg_fields(chk, rule, facts, T + "convert_entity_decl", JS + "StandardEntityType", {"member_of_types": "member_of_types", "shape": "attrs", "tags": "tags"}, "entity")
    n += agg_fields(chk, rule, facts, T + "convert_attr_decl", JS + "TypeOfAttribute", {"ty": "ty", "required": "required"}, "attribute")
    n += agg_fields(chk, rule, facts, T + "convert_action_decl", JS + "ActionType", {"applies_to": "app_decls", "member_of": "parents"}, "action")
    # the attribute's name is its own
    f = facts.fn(T + "convert_attr_decl")
    if f is not None:
        L = shape.Labels(f, None, src_seed)
        ok = False
        for b, s in f.stmts():
            if s[0] == "a" and s[1] == [0] and s[2][0] == "agg" and s[2][1][0] == "tuple":
                labs = {x for x in L.operand_labels(s[2][2][0]) if x in ("SRC:name", "SRC:ty", "SRC:required")}
                ok = labs == {"SRC:name"}
        n += 1
        chk.ob(rule, "attribute:name", ok, "the attribute is keyed by its own name: %s" % ok, where=f.where(), fn=f.name)
    n += applies_to(chk, rule, facts)
    chk.floor(rule, "components", n, 11)
    schema_printer(chk, facts)
    collision_guard(chk, facts)
    namespace_of_loaded_schema(chk, facts)
