"""C09 — the Cedar-syntax -> JSON schema conversion keeps every component in its own role.

Decides one structural necessary condition of 'both schema syntaxes denote the same schema': in
cedar_schema::to_json_schema each component of a JSON schema item is filled from the component of the
Cedar-syntax declaration that has that role, and from no other:
  entity:    member_of_types <- `in` list, shape <- attribute declarations, tags <- tags;
  attribute: name, ty, required <- the declaration's own name / type / optionality flag;
  action:    member_of <- parents, applies_to <- appliesTo declarations;
  appliesTo: principal_types <- the `principal` declaration, resource_types <- the `resource` one, context <- `context`.
It does not decide the Cedar-syntax printer (string formatting), name / common-type resolution, or equality of
the loaded schemas - those are value-level and stay not applicable.
"""
from lib import shape, cfg, xlabels
from lib.facts import callee
from lib.rulelib import get_fn, short

T = "cedar_policy_core::validator::cedar_schema::to_json_schema::"
JS = "cedar_policy_core::validator::json_schema::"
SRC = "cedar_schema::ast::"


def src_seed(p):
    out = []
    for e in p[1:]:
        if isinstance(e, list) and e[0] == "f" and SRC in str(e[3]) and e[2] and not str(e[2]).isdigit():
            out.append("SRC:" + e[2])
    return out


def agg_fields(chk, rule, facts, fname, target, spec, tag):
    """spec: {target field: source field}; every listed field of the `target` literal must derive from exactly that source field."""
    f = get_fn(chk, facts, rule, fname)
    if f is None:
        return 0
    universe = {"SRC:" + v for v in spec.values()}
    n = 0
    found = False
    for g, L in xlabels.bodies_with_labels(facts, f, src_seed):
        for b, s in g.stmts():
            if s[0] == "a" and s[2][0] == "agg" and s[2][1][0] == "adt" and s[2][1][1] == target:
                found = True
                for nm, o in zip(s[2][1][3], s[2][2]):
                    if nm not in spec:
                        continue
                    labs = {x for x in L.operand_labels(o) if x in universe}
                    want = {"SRC:" + spec[nm]}
                    n += 1
                    chk.ob(rule, "%s:%s" % (tag, nm), labs == want, "%s.%s is filled from the declaration's %s%s" % (target.split("::")[-1], nm, sorted(x[4:] for x in labs), "" if labs == want else " — required exactly `%s`" % spec[nm]),
                           where=g.where(s[3]), fn=g.name, key="%s:%s:%s" % (rule, tag, nm), sample={"field": nm, "from": sorted(x[4:] for x in labs)})
    if not found:
        chk.lost(rule, "%s literal in %s" % (target.split("::")[-1], short(fname)))
    return n


def applies_to(chk, rule, facts):
    """Role agreement without relying on local names: the accumulator a `principal` declaration is recorded in is the one
    ApplySpec.principal_types is read from (same for resource / context), and no other."""
    f = get_fn(chk, facts, rule, T + "convert_app_decls")
    if f is None:
        return 0
    PR = facts.adts.get("cedar_policy_core::validator::cedar_schema::ast::PR")
    APP = facts.adts.get("cedar_policy_core::validator::cedar_schema::ast::AppDecl")
    if PR is None or APP is None:
        chk.lost(rule, "cedar_schema::ast::PR / AppDecl")
        return 0
    # accumulators: Option-typed locals assigned both outside the declaration arms (initialisation) and inside one
    arm_regions = {}
    for b, scrut, arms, other in shape.variant_switches(f, "cedar_schema::ast::PR"):
        for vi, tgt in arms.items():
            arm_regions[PR["variants"][vi]["name"]] = cfg.dominated_region(f, tgt)
    for b, scrut, arms, other in shape.variant_switches(f, "cedar_schema::ast::AppDecl"):
        for vi, tgt in arms.items():
            if APP["variants"][vi]["name"] == "Context":
                arm_regions["Context"] = cfg.dominated_region(f, tgt)
    inside = {}
    outside = set()
    all_arm_blocks = set().union(*arm_regions.values()) if arm_regions else set()
    for b, st in f.stmts():
        if st[0] == "a" and len(st[1]) == 1 and f.locals[st[1][0]].startswith(("std::option::Option<", "core::option::Option<", "option::Option<")):
            if b in all_arm_blocks:
                for role, reg in arm_regions.items():
                    if b in reg:
                        inside.setdefault(st[1][0], set()).add(role)
            else:
                outside.add(st[1][0])
    acc = {l: roles for l, roles in inside.items() if l in outside}
    L = shape.Labels(f, None, lambda p: ["ACC:%d" % p[0]] if p[0] in acc else [])
    reads = {}
    for b, st in f.stmts():
        if st[0] == "a" and st[2][0] == "agg" and st[2][1][0] == "adt" and st[2][1][1] == JS + "ApplySpec":
            for nm, o in zip(st[2][1][3], st[2][2]):
                reads[nm] = {int(x[4:]) for x in L.operand_labels(o) if x.startswith("ACC:")}
    n = 0
    want = {"Principal": "principal_types", "Resource": "resource_types", "Context": "context"}
    if not reads:
        chk.lost(rule, "ApplySpec literal in convert_app_decls")
        return 0
    for role, fld in want.items():
        mine = {l for l, roles in acc.items() if role in roles}
        ok = bool(mine) and bool(mine & reads.get(fld, set())) and not any(mine & ls for nm, ls in reads.items() if nm != fld) and all(acc[l] == {role} for l in mine)
        n += 1
        chk.ob(rule, "appliesTo:%s" % fld, ok, "a `%s` declaration is recorded in accumulator(s) %s; ApplySpec.%s reads %s; other fields read %s" %
               (role.lower(), sorted(mine), fld, sorted(reads.get(fld, [])), {nm: sorted(ls) for nm, ls in reads.items() if nm != fld}), where=f.where(), fn=f.name,
               key="%s:appliesTo:%s" % (rule, fld), sample={"role": role, "accumulators": sorted(mine), "field_reads": sorted(reads.get(fld, []))})
    return n


def run(chk, facts, tier):
    facts.load_crate("cedar_policy_core.lib")
    chk.explanation = (
        "Static decision of one structural necessary condition of 'the two schema syntaxes denote the same schema' on the current MIR: in cedar_schema::to_json_schema every component of "
        "a JSON schema item is filled from the component of the Cedar-syntax declaration that has that role and from no other (entity: member_of_types / shape / tags; attribute: name / type / "
        "required; action: member_of / applies_to; appliesTo: principal, resource and context declarations go to their own lists). Declines the Cedar-syntax printer, name and common-type "
        "resolution and the equality of the loaded schemas (value-level).")
    chk.assumptions = ["label provenance is flow-insensitive per body, across closure captures", "MIR at mir-opt-level=0 reflects source control flow"]
    rule = "C09.FIELDS"
    n = 0
    n += agg_fields(chk, rule, facts, T + "convert_entity_decl", JS + "StandardEntityType", {"member_of_types": "member_of_types", "shape": "attrs", "tags": "tags"}, "entity")
    n += agg_fields(chk, rule, facts, T + "convert_attr_decl", JS + "TypeOfAttribute", {"ty": "ty", "required": "required"}, "attribute")
    n += agg_fields(chk, rule, facts, T + "convert_action_decl", JS + "ActionType", {"applies_to": "app_decls", "member_of": "parents"}, "action")
    # the attribute's name is its own
    f = facts.fn(T + "convert_attr_decl")
    if f is not None:
        L = shape.Labels(f, None, src_seed)
        ok = False
        for b, s in f.stmts():
            if s[0] == "a" and s[1] == [0] and s[2][0] == "agg" and s[2][1][0] == "tuple":
                labs = {x for x in L.operand_labels(s[2][2][0]) if x in ("SRC:name", "SRC:ty", "SRC:required")}
                ok = labs == {"SRC:name"}
        n += 1
        chk.ob(rule, "attribute:name", ok, "the attribute is keyed by its own name: %s" % ok, where=f.where(), fn=f.name)
    n += applies_to(chk, rule, facts)
    chk.floor(rule, "components", n, 11)
