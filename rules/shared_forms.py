"""SIBLING.forms — the `_str`, `_value` and `_file` forms of an entry point do the same work.

Functions of one type whose names differ only in the suffix _str / _value / _file are siblings. A sibling either delegates
to another member of its group or is an implementer; all implementers of a group call the same multiset of workspace
functions (in their bodies and closures), up to the same suffix renaming. Siblings are compared with each other: nothing
is frozen. A form that skips the schema, the validation or the closure computation its siblings perform is the defect.
"""
import collections

from lib.facts import callee
from lib.rulelib import short

SUF = ("_str", "_value", "_file")


def _norm(s):
    for x in SUF:
        if s.endswith(x):
            return s[:-len(x)] + "_*"
    return s


def check(chk, facts, rule, prefixes, floor):
    groups = collections.defaultdict(dict)
    for n in facts.fns.keys():
        if "{closure" in n or not n.startswith(tuple(prefixes)) or "::test" in n or "tests::" in n:
            continue
        segs = n.split("::")
        own = segs[-1]
        for x in SUF:
            if own.endswith(x):
                groups[("::".join(segs[:-1]), own[:-len(x)])][x] = n
    k = 0
    for (ty, base), mem in sorted(groups.items()):
        if len(mem) < 2:
            continue
        prof = {}
        for x, n in mem.items():
            f = facts.fns[n]
            cs = []
            def calls_of(h, depth):
                for g in [h] + list(facts.closures_of(h.name)):
                    for b, t in g.calls():
                        c = callee(t)
                        if not c.startswith(("cedar_policy::", "cedar_policy_core::")):
                            continue
                        # a private helper of the same type is looked through once, so that moving shared work into a helper
                        # in one form only does not count as a difference
                        if depth == 0 and c.startswith(ty + "::") and c not in mem.values() and c in facts.fns and "{closure" not in c:
                            yield from calls_of(facts.fns[c], 1)
                        else:
                            yield _norm(c.split("::")[-1])
            cs = list(calls_of(f, 0))
            prof[x] = sorted(cs)
        impl = {x: p for x, p in prof.items() if p != [base + "_*"]}
        vals = list(impl.values())
        same = all(v == vals[0] for v in vals) if vals else True
        k += 1
        for n in mem.values():
            chk.functions.add(n)
        det = "" if same else "; ".join("%s%s: %s" % (base, x, [c for c in p]) for x, p in sorted(impl.items()))
        chk.ob(rule, "%s::%s_*" % (ty.split("::")[-1], base), same,
               "%s::%s{%s}: %d implementer(s), %d delegating form(s); implementers make the same workspace calls: %s%s" % (
                   ty.split("::")[-1], base, ",".join(sorted(mem)), len(impl), len(mem) - len(impl), same, (" — " + det) if det else ""),
               where=facts.fns[sorted(mem.values())[0]].where(), key="%s:%s:%s" % (rule, ty, base), sample={"type": ty.split("::")[-1], "base": base, "forms": sorted(mem)} if k % 4 == 0 else None)
    chk.floor(rule, "entry-point form groups", k, floor)
