"""C03.DISJOINT — the typechecker's disjointness oracle only answers `true` from the one reviewed source.

`Type::are_types_disjoint` licenses typing `==` as False (and, through short-circuiting, skipping the other operand of `&&`):
"declaring types disjoint when they are not would cause soundness errors in the typechecker" (the function's own contract). Every
value it can return is the constant `false` or the result of `EntityLUB::is_disjoint` applied to the entity least-upper-bounds of its
two parameters (`as_entity_lub`). Any other source of `true` (a new arm, a closure, a constant) is a new soundness-critical
capability and is reported with the producing call: e.g. a record case that forgets that an attribute optional on both sides leaves
both types inhabited by the record without it. This is an inventory of the capability, not a proof that a new case is wrong: a new
case needs review and an entry here.
"""
from lib.facts import callee
from lib.rulelib import get_fn
from lib.slice import leaf_producers

FN = "cedar_policy_core::validator::types::Type::are_types_disjoint"
SOURCE = "cedar_policy_core::validator::types::EntityLUB::is_disjoint"


def check(chk, facts, rule="C03.DISJOINT"):
    f = get_fn(chk, facts, rule, FN)
    if f is None:
        return
    closures = facts.closures_of(f.name)
    other = []
    srcs = 0
    for b, s in f.stmts():
        if s[0] == "a" and s[1][0] == 0:
            rv = s[2]
            if rv[0] == "use" and rv[1][0] == "k":
                if rv[1][1].get("v") not in (0, False):
                    other.append("constant %s" % rv[1][1].get("v"))
            elif rv[0] == "use":
                for x in leaf_producers(f, rv[1]):
                    if str(x) == "call:" + SOURCE:
                        srcs += 1
                    elif str(x) != "const":
                        other.append(str(x)[:90])
            else:
                other.append("computed (%s)" % rv[0])
    lub_ok = True
    for b, t in f.calls():
        c = callee(t)
        if t[3] and t[3][0] == 0:
            if c == SOURCE:
                srcs += 1
                pass
            else:
                other.append("call " + c.split("::")[-1])
    # the two entity least-upper-bounds compared are those of the two parameters
    lubs = [b for b, t in f.calls() if callee(t).endswith("EntityKind::as_entity_lub")]
    lub_ok = len(lubs) >= 2
    if closures:
        other.append("%d closure(s) deciding disjointness" % len(closures))
    ok = not other and srcs >= 1 and lub_ok
    chk.ob(rule, "are_types_disjoint:sources", ok,
           "are_types_disjoint answers `true` only as EntityLUB::is_disjoint of the two parameters' entity least-upper-bounds; every other path answers the conservative `false`" if ok
           else "are_types_disjoint has a new source of `true`: %s (entity-LUB operands ok: %s) — a soundness-critical capability of the typechecker grew (types declared disjoint that are not make `==` False and skip checks)" % (sorted(set(other)) or "none", lub_ok),
           where=f.where(), fn=f.name, sample={"other_sources": sorted(set(other)), "reviewed_sources": srcs, "lub_operands": lub_ok})
